#!/usr/bin/env python3
"""Translate the (de)serialisation functions behind property C11 to Gallina, construct by construct (fail-closed:
anything outside the grammar below is rejected with exit code 3 and the output is replaced by a stub that does not
compile).

  utils.py                         convert_dict_to_array convert_array_to_dict load_list save_list
                                   save_nmeas_estimate load_nmeas_estimate
  measurements/expectation_values.py   ExpectationValues.__init__ (shape check) .to_dict .from_dict
  operators/_io.py                 convert_dict_to_op convert_op_to_dict save_operator load_operator
                                   save_operator_set load_operator_set
  operators/_pauli_operators.py    _parse_operator _parse_operators_and_coefficient PauliTerm.__len__ .__getitem__
                                   .__repr__ PauliSum.__len__ .__repr__
                                                                                      -> Gen/ArtefactsGen.v

Every generated definition `<name>_gen` is assembled from the pieces the Python constructs of the function body map
to; nothing is recognised "as a whole".  The meaning of the pieces is the hand-written coq/Serde/ArtefactsTrSupport.v;
coq/Serde/ArtefactsGenProofs.v proves, on every run, that the generated definitions agree with the models
coq/Serde/Artefacts.v and coq/Serde/OpSerde.v the C11 theorems are about.

Types (static, flow-sensitive: a name has the type of the value last assigned to it)
  json      a value read from / written to JSON (annotations dict, Dict[str, Any]; subscripts of such values)
  num       a number that is written to JSON (annotations int, float of the save functions; coefficient parts)
  str int bool none | opt T (Optional) | list T | tuple (T1, ..) | fset T (a frozenset: iteration only)
  arr       np.ndarray          ev    ExpectationValues object        path  AnyPath       src  LoadSource / open file
  wfile     file opened for writing          coef   term.coefficient (int/float or complex)
  pyval     json or the complex number built by  a + 1j * b           imag T    the value 1j * e (e of type T)
  sterm / oprep   PauliTerm / PauliRepresentation as the serialiser sees them;  pterm / psum  the PauliTerm built by
  from_iterable / the PauliSum being accumulated;  tterm / tsum / ccoef / opsdict / match: the text side
  Coercions, inserted only where a value meets an expected type: T <= opt T (Some), none <= opt T, json <= pyval,
  path <= src, and into json (when a value is stored in a dict / list display or slot): num, str, qubit index,
  letter, none, list of such.  Joins of branches: equal types, none/T -> opt T, json/pyval -> pyval.
Expressions
  names; str / int / None literals; e.attr per the attribute tables (self.<field> of the class of the method,
  term.coefficient / .operations, op.terms, c.real / .imag, a.real / .imag, self._ops, self.coefficient, self.terms);
  x[k] (json by str key, tuple / list by literal index, list[1:]); {k: v, ..}; [..]; (a, b);
  [e for p in xs if c ..] (one for clause; own scope);  a if c else b;  1j * e;  a + 1j * e;
  k in x (json), x is None / is not None, == != on ints / strs, not, and (short-circuit), truthiness of opt / list /
  json / match values;  f"..{e}.." (e a str, an index or a coefficient; no conversion / format spec);
  calls: translated functions (positional arguments, all given), cls(..) in a classmethod, cast(T, e),
  isinstance(x, (str, bytes, os.PathLike)), isinstance(c, complex), np.array, np.iscomplexobj, x.tolist(),
  x.get(k), x.get(k, default) (opsdict), json.dumps(e, indent=2), json.load(e), PauliSum(), PauliTerm.from_iterable,
  PauliTerm("<one factor>", 0), _parse_complex(s) (abstract: read_c), len, str, int, dict, s.strip(" "), s.upper(),
  sep.join(xs), re.split (only on the result of s.strip(" ")) / re.match with one of the literal patterns of the
  dialect table, m.group(1|2), i in / not in self._ops, self[i] / len(self) / str(term) through the translated
  __getitem__ / __len__ / __repr__ (the class must not define __str__ / __format__).
  Sub-expressions that can raise are bound left to right (Python's evaluation order) before the pure remainder.
Statements
  x = e | x: T = e | x += e (psum += pterm, json/pyval += 1j * json) | x[k] = e | x.append(e) | x[k].append(e)
  (mutations: owned locals only, see below) | f.write(e) | warnings.warn(..) (no effect on values) |
  if / elif / else: a guard (no else, body ends in return / raise), or the last statement with every branch
  returning, or a join: the names bound before (or assigned on both sides) that a branch re-binds are returned
  as a tuple from both branches; `if x is [not] None` on a name narrows it (match) |
  for p in xs: body (no break / continue / return / else): py_for over the elements, the state being the names
  bound before the loop that the body re-binds; names first bound in the body and the loop target are not visible
  afterwards | try: assignments except ValueError: assignments (the handler re-assigns every name of the body) |
  with open(p, "r") as f: body   (f = the open file) | with open(p, "w") as f: body (function level only; the
  function then takes and returns the file system) | return e | raise ValueError(<text>).
Parameters: annotated (see ANNOT), defaults None only; the generated function takes every parameter explicitly.  Return
  annotations are not used: the result type is the one computed for the returned expressions (checked by coqc against
  the statement of the agreement theorem).
Ownership (lists and dicts are translated as values): a local may be mutated only while it is the sole reference
  to an object built in this function ({..}, [..], [], a comprehension); using it as a value (storing it, passing
  it on, returning it) ends that, any later use is rejected; x[k].append(e) needs x[k] = [] earlier on every path;
  parameters and results of calls are never mutated.
Module level: the names the grammar gives a meaning to (np, json, os, re, cast, the imported functions and classes,
  the builtins) must be bound exactly once in the expected way / never re-bound, and not shadowed by a local;
  the translated functions are defined exactly once, undecorated (methods: exactly @classmethod where the table
  says so); the classes have no bases, decorators or attribute hooks.
"""
OUTPUTS = ['ArtefactsGen.v']      # generated files (the driver uses this to decide which properties depend on this translator)
import ast, os, re
from trlib import *

FORBIDDEN_TEXT = re.compile(r"Admitted|admit|Axiom|Parameter|Conjecture|bypass_check|Unset|\(\*|\*\)|type-in-type|impredicative")

# ----------------------------------------------------------------------------- types
class TV:
    """inference variable (element type of [] until an append / a use determines it)"""
    def __init__(self):
        self.ref = None

def prune(t):
    while isinstance(t, TV) and t.ref is not None:
        t = t.ref
    if isinstance(t, tuple):
        return tuple(prune(x) if isinstance(x, (tuple, TV)) else x for x in t)
    return t

JSON, NUM, STR, INT, BOOL, NONE = ("json",), ("num",), ("str",), ("int",), ("bool",), ("none",)
ARR, EV, PATH, SRC, WFILE = ("arr",), ("ev",), ("path",), ("src",), ("wfile",)
COEF, PYVAL, STERM, OPREP, QUBIT, LETTER, PTERM, PSUM = ("coef",), ("pyval",), ("sterm",), ("oprep",), ("qubit",), ("letter",), ("pterm",), ("psum",)
TTERM, TSUM, CCOEF, OPSDICT, MATCH, IDICT = ("tterm",), ("tsum",), ("ccoef",), ("opsdict",), ("match",), ("idict",)
def OPT(t): return ("opt", t)
def LIST(t): return ("list", t)
def FSET(t): return ("fset", t)
def TUP(*ts): return ("tuple",) + tuple(ts)
def IMAG(t): return ("imag", t)

COQTY = {"json": "jt R", "num": "R", "str": "string", "int": "Z", "bool": "bool", "none": "unit", "arr": "arr R",
         "ev": "expvals R", "path": "string", "src": "loadsrc", "coef": "pyc R", "pyval": "pyval R", "sterm": "sterm R",
         "oprep": "list (sterm R)", "qubit": "nat", "letter": "letter", "pterm": "(pyc R * ops)", "psum": "psum K",
         "tterm": "tterm C", "tsum": "list (tterm C)", "ccoef": "C", "opsdict": "list (nat * letter)",
         "idict": "list (nat * string)"}

def cty(t):
    t = prune(t)
    if isinstance(t, TV):
        raise Reject("internal: undetermined type in a signature")
    if t[0] in ("opt",):
        return f"option ({cty(t[1])})"
    if t[0] in ("list", "fset"):
        return f"list ({cty(t[1])})"
    if t[0] == "tuple":
        return "(" + " * ".join(cty(x) for x in t[1:]) + ")"
    if t[0] in COQTY:
        return COQTY[t[0]]
    raise Reject(f"internal: type {t} has no Coq type")

def tname(t):
    t = prune(t)
    if isinstance(t, TV):
        return "?"
    return t[0] + ("(" + ", ".join(tname(x) for x in t[1:]) + ")" if len(t) > 1 else "")

def same(a, b):
    """structural equality up to inference variables, without binding them"""
    a, b = prune(a), prune(b)
    if isinstance(a, TV) or isinstance(b, TV):
        return True
    return a[0] == b[0] and len(a) == len(b) and all(same(x, y) for x, y in zip(a[1:], b[1:]))

def unify(a, b, node):
    a, b = prune(a), prune(b)
    if isinstance(a, TV):
        if a is not b:
            a.ref = b
        return
    if isinstance(b, TV):
        b.ref = a
        return
    if a[0] != b[0] or len(a) != len(b):
        reject(node, f"type {tname(b)} where {tname(a)} is expected")
    for x, y in zip(a[1:], b[1:]):
        unify(x, y, node)

def src(node):
    t = " ".join(ast.unparse(node).split("\n")[0].split())[:110]
    return "(source elided)" if FORBIDDEN_TEXT.search(t) or '"' in t or not t.isascii() else t

def cstr(s, node):
    if not isinstance(s, str) or not all(32 <= ord(c) < 127 for c in s):
        reject(node, "string literal with characters outside printable ASCII")
    return '"' + s.replace('"', '""') + '"'

def coerce(text, frm, to, node):
    """text of type frm used where `to` is expected"""
    frm, to = prune(frm), prune(to)
    if isinstance(to, TV) or isinstance(frm, TV):
        unify(to, frm, node)
        return text
    if frm[0] == to[0] and frm[0] not in ("opt", "list", "tuple", "fset", "imag"):
        return text
    if to == JSON:
        if frm == NUM: return f"(TNum {text})"
        if frm == STR: return f"(TStr {text})"
        if frm == QUBIT: return f"(TNum (of_nat {text}))"
        if frm == LETTER: return f"(TStr (letter_str {text}))"
        if frm == NONE: return "TNull"
        if frm[0] == "list":
            el = prune(frm[1])
            if isinstance(el, TV):
                if text != "[]":
                    reject(node, "a list whose element type is not determined is stored as JSON")
                return "(TArr [])"
            if el == JSON:
                return f"(TArr {text})"
            return f"(TArr (map (fun c => {coerce('c', el, JSON, node)}) {text}))"
        reject(node, f"a value of type {tname(frm)} cannot be stored as JSON")
    if to[0] == "opt":
        if frm == NONE:
            return "None"
        if frm[0] == "opt":
            unify(to[1], frm[1], node)
            return text
        return f"(Some {coerce(text, frm, to[1], node)})"
    if to == PYVAL and frm == JSON:
        return f"(PJ {text})"
    if to == SRC and frm == PATH:
        return f"(SrcPath {text})"
    if frm[0] == to[0] and len(frm) == len(to):
        unify(to, frm, node)
        return text
    reject(node, f"a value of type {tname(frm)} where {tname(to)} is expected")

def join(a, b, node):
    """type of a name after two branches that leave it at types a and b"""
    a, b = prune(a), prune(b)
    if isinstance(a, TV) or isinstance(b, TV) or (a[0] == b[0] and same(a, b)):
        unify(a, b, node)
        return prune(a)
    if a == NONE: return b if b[0] == "opt" else OPT(b)
    if b == NONE: return a if a[0] == "opt" else OPT(a)
    if a[0] == "opt" and same(a[1], b): return a
    if b[0] == "opt" and same(b[1], a): return b
    if {a, b} == {JSON, PYVAL}: return PYVAL
    reject(node, f"branches leave a name at incompatible types {tname(a)} / {tname(b)}")

# ----------------------------------------------------------------------------- environment
class Var:
    def __init__(self, ty, owned=False, slots=(), moved=False):
        self.ty, self.owned, self.slots, self.moved = ty, owned, set(slots), moved
    def copy(self):
        return Var(self.ty, self.owned, self.slots, self.moved)

class Env:
    def __init__(self, vars=None):
        self.vars = vars if vars is not None else {}
    def copy(self):
        return Env({k: v.copy() for k, v in self.vars.items()})
    def bind(self, x, ty, owned=False):
        self.vars.pop(x, None)              # a re-bound name moves to the end: the order is the order of last binding
        self.vars[x] = Var(ty, owned)

class Cx:
    """per-function state"""
    def __init__(self, mod, F, fdef, cls=None):
        self.mod, self.F, self.fdef, self.cls = mod, F, fdef, cls
        self.n = 0
        self.uses_fs = self.writes = False
        self.rets = []
        self.locals = {a.arg for a in fdef.args.args}
        for n in ast.walk(fdef):
            if isinstance(n, ast.Name) and isinstance(n.ctx, (ast.Store, ast.Del)):
                self.locals.add(n.id)
            if isinstance(n, (ast.Global, ast.Nonlocal, ast.Lambda, ast.Yield, ast.YieldFrom, ast.Await, ast.NamedExpr, ast.Starred)):
                reject(n, "construct not in the grammar")
            if isinstance(n, (ast.FunctionDef, ast.AsyncFunctionDef, ast.ClassDef)) and n is not fdef:
                reject(n, "nested definition")
    def tmp(self):
        self.n += 1
        return f"x{self.n}"

def immutable(t):
    """values of this type have no parts that could be mutated through another reference"""
    t = prune(t)
    if isinstance(t, TV):
        return False
    if t[0] == "tuple":
        return all(immutable(x) for x in t[1:])
    return t[0] in ("str", "num", "int", "bool", "none", "qubit", "letter", "coef", "ccoef")

def glob(cx, name, node):
    """the module-level / builtin name `name` is used with the meaning the grammar gives it"""
    if name in cx.locals:
        reject(node, f"{name} is shadowed by a local")
    if name not in cx.mod["globals"]:
        reject(node, f"{name} is not bound at module level in the way the grammar expects")

def is_name(e, x):
    return isinstance(e, ast.Name) and e.id == x

def is_attr(e, base, attr):
    return isinstance(e, ast.Attribute) and e.attr == attr and is_name(e.value, base)

def vname(x, node):
    if not re.fullmatch(r"[A-Za-z_][A-Za-z0-9_]*", x):
        reject(node, f"name {x!r} not accepted")
    return "v_" + x

def with_binds(binds, text):
    for x, t in reversed(binds):
        text = f"bind ({t}) (fun {x} =>\n  {text})"
    return text

def plain_call(e, n=None):
    if e.keywords or any(isinstance(a, ast.Starred) for a in e.args):
        reject(e, "keyword / starred arguments not accepted here")
    if n is not None and len(e.args) != n:
        reject(e, f"expected {n} argument(s)")

# ----------------------------------------------------------------------------- expressions
# attribute tables: (type, attribute) -> (text, result type, can raise?)
ATTR = {
    ("sterm", "coefficient"): ("term_coefficient {x}", COEF, False),
    ("sterm", "operations"): ("term_operations {x}", FSET(TUP(QUBIT, LETTER)), False),
    ("oprep", "terms"): ("op_terms {x}", LIST(STERM), False),
    ("coef", "real"): ("pyc_real {x}", NUM, False),
    ("coef", "imag"): ("pyc_imag {x}", NUM, True),
    ("arr", "real"): ("np_real {x}", ARR, False),
    ("arr", "imag"): ("np_imag {x}", ARR, True),
    ("tterm", "_ops"): ("tterm_ops {x}", OPSDICT, False),
    ("tterm", "coefficient"): ("tterm_coefficient {x}", CCOEF, False),
    ("tsum", "terms"): ("tsum_terms {x}", LIST(TTERM), False),
}
RE_SPLIT = {r"\ *\*\ *": "re_split_star"}
RE_MATCH = {(r"([XYZI])([0-9]+)$", "re.I"): "re_match_factor"}

def ex(e, env, cx, binds, use="value"):
    """(coq text, type); sub-evaluations that can raise are appended to binds in evaluation order.
       use = "value": the value may be kept by whoever receives it; "read": it is only inspected"""
    if isinstance(e, ast.Constant):
        v = e.value
        if v is None:
            return "tt", NONE
        if isinstance(v, bool):
            return ("true" if v else "false"), BOOL
        if isinstance(v, int):
            return f"({v})%Z", INT
        if isinstance(v, str):
            return cstr(v, e), STR
        reject(e, "literal not accepted")
    if isinstance(e, ast.Name):
        if not isinstance(e.ctx, ast.Load):
            reject(e, "name in non-load context")
        v = env.vars.get(e.id)
        if v is None:
            reject(e, "unknown name (or a name that is not bound on every path)")
        if v.moved:
            reject(e, f"{e.id} is used after it was stored / passed on / returned (a second reference may exist)")
        if v.owned:
            if use == "value":
                v.moved = True
            elif use != "read" and not (prune(v.ty)[0] == "list" and immutable(prune(v.ty)[1])):
                reject(e, f"{e.id} is a mutable local: this use is not accepted by the ownership discipline")
        return vname(e.id, e), v.ty
    if isinstance(e, ast.Attribute):
        t, ty = ex(e.value, env, cx, binds, "inspect")
        ty = prune(ty)
        if cx.cls and ty == cx.cls["type"] and e.attr in cx.cls.get("fields", {}):
            acc, fty = cx.cls["fields"][e.attr]
            return f"({acc} {t})", fty
        key = (ty[0], e.attr) if not isinstance(ty, TV) else None
        if key not in ATTR:
            reject(e, f"attribute .{e.attr} of a value of type {tname(ty)} not accepted")
        text, rty, raises = ATTR[key]
        text = text.format(x=t)
        if raises:
            x = cx.tmp()
            binds.append((x, text))
            return x, rty
        return f"({text})", rty
    if isinstance(e, ast.Subscript):
        return subscript(e, env, cx, binds)
    if isinstance(e, ast.Dict):
        items = []
        for k, v in zip(e.keys, e.values):
            if k is None:
                reject(e, "dict unpacking")
            kt, kty = ex(k, env, cx, binds)
            if prune(kty) != STR:
                reject(k, "dict key must be a str")
            vt, vty = ex(v, env, cx, binds)
            items.append(f"({kt}, {coerce(vt, vty, JSON, v)})")
        ks = [k.value for k in e.keys if isinstance(k, ast.Constant)]
        if len(ks) != len(e.keys) or len(set(ks)) != len(ks):
            reject(e, "dict display keys must be distinct str literals")
        return "(TObj [" + "; ".join(items) + "])", JSON
    if isinstance(e, ast.List):
        if not e.elts:
            return "[]", LIST(TV())
        el = TV()
        items = []
        for x in e.elts:
            t, ty = ex(x, env, cx, binds)
            items.append(coerce(t, ty, el, x))
        return "[" + "; ".join(items) + "]", LIST(el)
    if isinstance(e, ast.Tuple):
        if len(e.elts) < 2:
            reject(e, "tuple of fewer than two elements")
        parts = [ex(x, env, cx, binds) for x in e.elts]
        return "(" + ", ".join(p[0] for p in parts) + ")", TUP(*[p[1] for p in parts])
    if isinstance(e, ast.ListComp):
        return comprehension(e, env, cx, binds)
    if isinstance(e, ast.IfExp):
        c = cond(e.test, env, cx, binds)
        ba, bb = [], []
        a, ta = ex(e.body, env, cx, ba)
        b, tb = ex(e.orelse, env, cx, bb)
        ty = join(ta, tb, e)
        a, b = coerce(a, ta, ty, e), coerce(b, tb, ty, e)
        if not ba and not bb:
            return f"(if {c} then {a} else {b})", ty
        x = cx.tmp()
        binds.append((x, f"if {c} then ({with_binds(ba, 'Val ' + a)}) else ({with_binds(bb, 'Val ' + b)})"))
        return x, ty
    if isinstance(e, ast.BinOp):
        return binop(e, env, cx, binds)
    if isinstance(e, (ast.Compare, ast.BoolOp)) or (isinstance(e, ast.UnaryOp) and isinstance(e.op, ast.Not)):
        return cond(e, env, cx, binds), BOOL
    if isinstance(e, ast.JoinedStr):
        parts = []
        for v in e.values:
            if isinstance(v, ast.Constant):
                parts.append(cstr(v.value, v))
                continue
            if not isinstance(v, ast.FormattedValue) or v.conversion != -1 or v.format_spec is not None:
                reject(v, "f-string part not accepted")
            t, ty = ex(v.value, env, cx, binds, "read")
            parts.append(to_str(t, ty, v, cx, binds))
        text = '""' if not parts else parts[-1]
        for p in reversed(parts[:-1]):
            text = f"({p} ++ {text})"
        return text, STR
    if isinstance(e, ast.Call):
        return call(e, env, cx, binds)
    reject(e, "expression not accepted")

def to_str(t, ty, node, cx, binds):
    """str(x) / format(x, "") of a value"""
    ty = prune(ty)
    if ty == STR: return t
    if ty == QUBIT: return f"(dec (N.of_nat {t}))"
    if ty == CCOEF: return f"(show_c {t})"
    if ty == TTERM:
        return method_call(cx, TTERM, "__repr__", [t], node, binds)[0]
    reject(node, f"str() of a value of type {tname(ty)} not accepted")

def method_call(cx, ty, mname, args, node, binds):
    g = cx.F.get((ty[0], mname))
    if g is None:
        reject(node, f"method {mname} of {tname(ty)} is not translated")
    if g["uses_fs"]:
        reject(node, "internal: method with file effects")
    x = cx.tmp()
    binds.append((x, " ".join([g["coq"]] + args)))
    return x, g["ret"]

def subscript(e, env, cx, binds):
    t, ty = ex(e.value, env, cx, binds, "inspect")
    ty = prune(ty)
    s = e.slice
    if ty == JSON:
        k, kty = ex(s, env, cx, binds)
        if prune(kty) != STR:
            reject(e, "a JSON value is subscripted by str keys only")
        x = cx.tmp()
        binds.append((x, f"py_getitem {t} {k}"))
        return x, JSON
    if ty[0] == "tuple" and isinstance(s, ast.Constant) and isinstance(s.value, int) and not isinstance(s.value, bool):
        n = len(ty) - 1
        if not 0 <= s.value < n:
            reject(e, "tuple index out of range")
        # (a, b, c) is ((a, b), c)
        text = t
        for _ in range(n - 1 - s.value):
            text = f"(fst {text})"
        return (f"(snd {text})" if s.value > 0 else text), ty[1 + s.value]
    if ty[0] == "list" and isinstance(s, ast.Constant) and s.value == 0 and not isinstance(s.value, bool):
        x = cx.tmp()
        binds.append((x, f"py_list_head {t}"))
        return x, ty[1]
    if ty[0] == "list" and isinstance(s, ast.Slice) and s.upper is None and s.step is None \
            and isinstance(s.lower, ast.Constant) and s.lower.value == 1 and not isinstance(s.lower.value, bool):
        return f"(py_list_from1 {t})", ty
    if cx.cls and ty == cx.cls["type"] and (ty[0], "__getitem__") in cx.F:
        k, kty = ex(s, env, cx, binds)
        g = cx.F[(ty[0], "__getitem__")]
        return method_call(cx, ty, "__getitem__", [t, coerce(k, kty, g["args"][1], s)], e, binds)
    reject(e, f"subscript of a value of type {tname(ty)} not accepted")

def binop(e, env, cx, binds):
    if isinstance(e.op, ast.Mult) and isinstance(e.left, ast.Constant) and isinstance(e.left.value, complex) and e.left.value == 1j:
        t, ty = ex(e.right, env, cx, binds)
        if prune(ty) not in (JSON, ARR):
            reject(e, f"1j * a value of type {tname(ty)} not accepted")
        return t, IMAG(prune(ty))
    if isinstance(e.op, ast.Add):
        a, ta = ex(e.left, env, cx, binds)
        b, tb = ex(e.right, env, cx, binds)
        ta, tb = prune(ta), prune(tb)
        if ta == ARR and tb == IMAG(ARR):
            x = cx.tmp()
            binds.append((x, f"np_add_imag {a} {b}"))
            return x, ARR
        if ta in (JSON, PYVAL) and tb == IMAG(JSON):
            x = cx.tmp()
            binds.append((x, f"py_add_imag {coerce(a, ta, PYVAL, e)} {b}"))
            return x, PYVAL
        if ta == PSUM and tb == PTERM:
            return f"(py_sum_iadd is_zero inj {a} {b})", PSUM
        reject(e, f"+ on {tname(ta)}, {tname(tb)} not accepted")
    reject(e, "binary operation not accepted")

def truthy(t, ty, node):
    ty = prune(ty)
    if ty == BOOL: return t
    if ty == JSON: return f"(jt_truthy r_truthy {t})"
    if ty == OPT(JSON): return f"(py_truthy_ojson r_truthy {t})"
    if ty[0] == "opt" and prune(ty[1])[0] == "list": return f"(py_truthy_olist {t})"
    if ty[0] == "list": return f"(py_truthy_list {t})"
    if ty == OPT(MATCH): return f"(py_is_some {t})"
    reject(node, f"truth value of a value of type {tname(ty)} not accepted")

def cond(e, env, cx, binds):
    """a test: coq text of type bool"""
    if isinstance(e, ast.UnaryOp) and isinstance(e.op, ast.Not):
        return f"(negb {cond(e.operand, env, cx, binds)})"
    if isinstance(e, ast.BoolOp) and isinstance(e.op, ast.And):
        # a and b: b is evaluated only when a is true
        text = None
        parts = []
        for v in e.values:
            b = []
            parts.append((cond(v, env, cx, b), b))
        c0, b0 = parts[0]
        binds.extend(b0)
        if all(not b for _, b in parts[1:]):
            return "(" + " && ".join([c0] + [c for c, _ in parts[1:]]) + ")%bool"
        text = "Val true"
        for c, b in reversed(parts[1:]):
            text = with_binds(b, f"if {c} then {text} else Val false")
        x = cx.tmp()
        binds.append((x, f"if {c0} then ({text}) else Val false"))
        return x
    if isinstance(e, ast.Compare):
        if len(e.ops) != 1:
            reject(e, "chained comparison")
        op, l, r = e.ops[0], e.left, e.comparators[0]
        if isinstance(op, (ast.Is, ast.IsNot)):
            if not (isinstance(r, ast.Constant) and r.value is None):
                reject(e, "`is` is accepted against None only")
            t, ty = ex(l, env, cx, binds, "read")
            ty = prune(ty)
            if ty == NONE:
                res = "true"
            elif ty[0] == "opt":
                res = f"(py_is_none {t})"
            else:
                reject(e, f"`is None` on a value of type {tname(ty)} (statically decided; not accepted)")
            return res if isinstance(op, ast.Is) else f"(negb {res})"
        if isinstance(op, (ast.In, ast.NotIn)):
            k, kty = ex(l, env, cx, binds)
            t, ty = ex(r, env, cx, binds, "inspect")
            if prune(kty) == QUBIT and prune(ty) == OPSDICT:
                res = f"(py_ops_contains {k} {t})"
                return res if isinstance(op, ast.In) else f"(negb {res})"
            if prune(kty) != STR or prune(ty) != JSON:
                reject(e, "`in` is accepted for a str key in a JSON value only")
            x = cx.tmp()
            binds.append((x, f"py_contains_key {k} {t}"))
            return x if isinstance(op, ast.In) else f"(negb {x})"
        if isinstance(op, (ast.Eq, ast.NotEq)):
            a, ta = ex(l, env, cx, binds, "read")
            b, tb = ex(r, env, cx, binds, "read")
            ta, tb = prune(ta), prune(tb)
            if ta == INT and tb == INT:
                res = f"(Z.eqb {a} {b})"
            elif ta == STR and tb == STR:
                res = f"(String.eqb {a} {b})"
            else:
                reject(e, f"== on {tname(ta)}, {tname(tb)} not accepted")
            return res if isinstance(op, ast.Eq) else f"(negb {res})"
        reject(e, "comparison not accepted")
    t, ty = ex(e, env, cx, binds, "read")
    return truthy(t, ty, e)

def iterable(e, env, cx, binds):
    """for .. in e: (text of the list of elements, element type)"""
    t, ty = ex(e, env, cx, binds, "inspect")
    ty = prune(ty)
    if ty[0] in ("list", "fset"):
        return t, ty[1]
    if ty == JSON or ty == OPT(JSON):
        x = cx.tmp()
        binds.append((x, f"{'py_iter_json' if ty == JSON else 'py_iter_ojson'} {t}"))
        return x, JSON
    if ty[0] == "opt" and prune(ty[1])[0] == "list":
        x = cx.tmp()
        binds.append((x, f"py_iter_olist {t}"))
        return x, prune(ty[1])[1]
    if ty == OPSDICT:                      # iterating a dict yields its keys in insertion order
        return f"(map fst {t})", QUBIT
    reject(e, f"iteration over a value of type {tname(ty)} not accepted")

def target_pattern(t, ty, env, node, fresh_only=True):
    """loop / comprehension target -> binder text; binds the names in env"""
    ty = prune(ty)
    if isinstance(t, ast.Name):
        if fresh_only and t.id in env.vars:
            reject(node, f"loop target {t.id} re-binds an existing local")
        env.bind(t.id, ty)
        return vname(t.id, t)
    if isinstance(t, ast.Tuple) and all(isinstance(x, ast.Name) for x in t.elts):
        if ty[0] != "tuple" or len(ty) - 1 != len(t.elts) or len({x.id for x in t.elts}) != len(t.elts):
            reject(node, f"cannot unpack a value of type {tname(ty)} into these names")
        return "'(" + ", ".join(target_pattern(x, xt, env, node, fresh_only) for x, xt in zip(t.elts, ty[1:])) + ")"
    reject(t, "target not accepted")

def comprehension(e, env, cx, binds):
    if len(e.generators) != 1 or e.generators[0].is_async:
        reject(e, "exactly one for clause")
    g = e.generators[0]
    it, ety = iterable(g.iter, env, cx, binds)
    inner = env.copy()                      # a comprehension has its own scope: its variable may shadow a local
    p = target_pattern(g.target, ety, inner, e, fresh_only=False)
    for c in g.ifs:
        cb = []
        ct = cond(c, inner, cx, cb)
        if cb:
            reject(c, "comprehension condition that can raise")
        it = f"(py_filter (fun {p} => {ct}) {it})"
    eb = []
    t, ty = ex(e.elt, inner, cx, eb)
    own = {n.id for n in ast.walk(g.target) if isinstance(n, ast.Name)}
    for x, v in inner.vars.items():         # an outer mutable local may not escape through the element expression
        if x in env.vars and x not in own and v.moved and not env.vars[x].moved:
            reject(e, f"{x} is stored / passed on inside a comprehension")
    if eb:
        x = cx.tmp()
        binds.append((x, f"py_comp (fun {p} => {with_binds(eb, 'Val ' + t)}) {it}"))
        return x, LIST(ty)
    return f"(map (fun {p} => {t}) {it})", LIST(ty)

def call(e, env, cx, binds):
    f = e.func
    # ---- module functions / classes
    if isinstance(f, ast.Name):
        name = f.id
        if name == "cls" and cx.cls and cx.cls.get("classmethod") and "cls" not in env.vars:
            return construct(cx.cls, e, env, cx, binds)
        if (cx.mod["name"], name) in cx.F_by_module:
            glob(cx, name, f)
            return call_translated(cx.F[cx.F_by_module[(cx.mod["name"], name)]], e, env, cx, binds)
        glob(cx, name, f)
        if name == "_parse_complex":
            plain_call(e, 1)
            t, ty = ex(e.args[0], env, cx, binds)
            if prune(ty) != STR:
                reject(e, "_parse_complex of a non-str")
            x = cx.tmp()
            binds.append((x, f"py_parse_complex read_c {t}"))
            return x, CCOEF
        if name == "cast":
            plain_call(e, 2)
            return ex(e.args[1], env, cx, binds, "value")
        if name == "isinstance":
            plain_call(e, 2)
            t, ty = ex(e.args[0], env, cx, binds, "read")
            ty, c = prune(ty), e.args[1]
            if ty == SRC and isinstance(c, ast.Tuple) and sorted(ast.unparse(x) for x in c.elts) == ["bytes", "os.PathLike", "str"]:
                for x in ("str", "bytes", "os"):
                    glob(cx, x, c)
                return f"(py_is_pathlike {t})", BOOL
            if ty == COEF and is_name(c, "complex"):
                glob(cx, "complex", c)
                return f"(pyc_is_complex {t})", BOOL
            reject(e, "isinstance test not accepted")
        if name == "len":
            plain_call(e, 1)
            t, ty = ex(e.args[0], env, cx, binds, "read")
            ty = prune(ty)
            if ty[0] == "list" or ty in (OPSDICT, IDICT):
                return f"(py_len {t})", INT
            if (ty[0], "__len__") in cx.F:
                return method_call(cx, ty, "__len__", [t], e, binds)
            reject(e, f"len() of a value of type {tname(ty)} not accepted")
        if name == "str":
            plain_call(e, 1)
            t, ty = ex(e.args[0], env, cx, binds, "read")
            return to_str(t, ty, e, cx, binds), STR
        if name == "int":
            plain_call(e, 1)
            t, ty = ex(e.args[0], env, cx, binds, "read")
            if prune(ty) != STR:
                reject(e, "int() of a non-str")
            x = cx.tmp()
            binds.append((x, f"py_int_of_str {t}"))
            return x, QUBIT
        if name == "dict":
            plain_call(e, 1)
            t, ty = ex(e.args[0], env, cx, binds)
            if prune(ty) != LIST(TUP(QUBIT, STR)):
                reject(e, f"dict() of a value of type {tname(ty)} not accepted")
            return f"(py_dict_of_pairs {t})", IDICT
        if name == "PauliSum":
            plain_call(e, 0)
            return "(@nil (term K))", PSUM
        if name == "PauliTerm":
            plain_call(e, 2)
            a, b = e.args
            if not (isinstance(a, ast.Constant) and isinstance(a.value, str) and isinstance(b, ast.Constant)
                    and isinstance(b.value, int) and not isinstance(b.value, bool) and b.value == 0):
                reject(e, "PauliTerm(<str literal>, 0) only")
            m = re.fullmatch(r"([XYZI])([0-9]+)", a.value)
            if not m or len(m.group(2)) > 4:
                reject(e, "PauliTerm literal must be one factor <letter><index>")
            return f'(py_PauliTerm_factor c_zero "{m.group(1)}" {int(m.group(2))}%nat)', TTERM
        reject(e, f"call of {name} not accepted")
    if not isinstance(f, ast.Attribute):
        reject(e, "call not accepted")
    # ---- module attributes
    if is_name(f.value, "np") and "np" not in cx.locals:
        glob(cx, "np", f)
        plain_call(e, 1)
        t, ty = ex(e.args[0], env, cx, binds)
        ty = prune(ty)
        if f.attr == "array" and ty == JSON:
            x = cx.tmp()
            binds.append((x, f"np_array {t}"))
            return x, ARR
        if f.attr == "iscomplexobj" and ty == ARR:
            return f"(np_iscomplexobj {t})", BOOL
        reject(e, f"np.{f.attr} of a value of type {tname(ty)} not accepted")
    if is_name(f.value, "json") and "json" not in cx.locals:
        glob(cx, "json", f)
        lib = cx.mod["jsonlib"]
        if f.attr == "dumps":
            if len(e.args) != 1 or len(e.keywords) != 1 or e.keywords[0].arg != "indent" or ast.unparse(e.keywords[0].value) != "2":
                reject(e, "json.dumps(x, indent=2) only")
            t, ty = ex(e.args[0], env, cx, binds, "read")
            return f"({lib}_dumps {coerce(t, ty, JSON, e)})", STR
        if f.attr == "load":
            plain_call(e, 1)
            t, ty = ex(e.args[0], env, cx, binds)
            x = cx.tmp()
            binds.append((x, f"py_json_load {lib}_loads {coerce(t, ty, SRC, e)}"))
            return x, JSON
        reject(e, f"json.{f.attr} not accepted")
    if is_name(f.value, "re") and "re" not in cx.locals:
        glob(cx, "re", f)
        if not (e.args and isinstance(e.args[0], ast.Constant) and isinstance(e.args[0].value, str)) or e.keywords:
            reject(e, "re call with a non-literal pattern")
        pat = e.args[0].value
        if f.attr == "split" and len(e.args) == 2 and pat in RE_SPLIT:
            a = e.args[1]
            if not (isinstance(a, ast.Call) and isinstance(a.func, ast.Attribute) and a.func.attr == "strip" and len(a.args) == 1
                    and isinstance(a.args[0], ast.Constant) and a.args[0].value == " " and not a.keywords):
                reject(e, 're.split with this pattern is read only on the result of s.strip(" ")')
            t, ty = ex(e.args[1], env, cx, binds)
            if prune(ty) != STR:
                reject(e, "re.split of a non-str")
            return f"({RE_SPLIT[pat]} {t})", LIST(STR)
        if f.attr == "match" and len(e.args) == 3 and (pat, ast.unparse(e.args[2])) in RE_MATCH:
            t, ty = ex(e.args[1], env, cx, binds)
            if prune(ty) != STR:
                reject(e, "re.match of a non-str")
            x = cx.tmp()
            binds.append((x, f"{RE_MATCH[(pat, ast.unparse(e.args[2]))]} {t}"))
            return x, OPT(MATCH)
        reject(e, "regular expression call outside the dialect table")
    if is_attr(f, "PauliTerm", "from_iterable") and "PauliTerm" not in cx.locals:
        glob(cx, "PauliTerm", f)
        plain_call(e, 2)
        a, ta = ex(e.args[0], env, cx, binds)
        b, tb = ex(e.args[1], env, cx, binds)
        x = cx.tmp()
        binds.append((x, f"py_from_iterable to_nat {coerce(a, ta, LIST(TUP(JSON, JSON)), e)} {coerce(b, tb, PYVAL, e)}"))
        return x, PTERM
    # ---- methods of values
    if isinstance(f.value, ast.Constant) and isinstance(f.value.value, str) and f.attr == "join":
        plain_call(e, 1)
        t, ty = ex(e.args[0], env, cx, binds, "read")
        if prune(ty) != LIST(STR):
            reject(e, "join of something that is not a list of str")
        return f"(String.concat {cstr(f.value.value, f.value)} {t})", STR
    t, ty = ex(f.value, env, cx, binds, "inspect")
    ty = prune(ty)
    if f.attr == "get" and ty == JSON:
        plain_call(e, 1)
        k, kty = ex(e.args[0], env, cx, binds)
        if prune(kty) != STR:
            reject(e, ".get of a non-str key")
        x = cx.tmp()
        binds.append((x, f"py_get {t} {k}"))
        return x, OPT(JSON)
    if f.attr == "get" and ty == OPSDICT:
        plain_call(e, 2)
        k, kty = ex(e.args[0], env, cx, binds)
        d, dty = ex(e.args[1], env, cx, binds)
        if prune(kty) != QUBIT or prune(dty) != STR:
            reject(e, "_ops.get(index, <str>) expected")
        return f"(py_ops_get {t} {k} {d})", STR
    if f.attr == "tolist" and ty == ARR:
        plain_call(e, 0)
        x = cx.tmp()
        binds.append((x, f"np_tolist {t}"))
        return x, JSON
    if ty == STR and f.attr in ("strip", "upper"):
        if f.attr == "upper":
            plain_call(e, 0)
            return f"(py_upper {t})", STR
        plain_call(e)
        if len(e.args) == 1 and isinstance(e.args[0], ast.Constant) and e.args[0].value == " ":
            return f"(py_strip_spaces {t})", STR
        reject(e, 'only s.strip(" ") is accepted')
    if ty == OPT(MATCH) and f.attr == "group":
        plain_call(e, 1)
        a = e.args[0]
        if not (isinstance(a, ast.Constant) and a.value in (1, 2) and not isinstance(a.value, bool)):
            reject(e, "group(1) / group(2) only")
        x = cx.tmp()
        binds.append((x, f"py_match_group {t} {a.value}%nat"))
        return x, STR
    reject(e, f"method .{f.attr} of a value of type {tname(ty)} not accepted")

def call_translated(g, e, env, cx, binds):
    plain_call(e, len(g["args"]))
    if g["writes"]:
        reject(e, "call of a function that writes files")
    args = []
    for a, pt in zip(e.args, g["args"]):
        t, ty = ex(a, env, cx, binds)
        args.append(coerce(t, ty, pt, a))
    if g["uses_fs"]:
        cx.uses_fs = True
        args.append("fs")
    text = " ".join([g["coq"]] + args)
    x = cx.tmp()
    binds.append((x, text))
    return x, g["ret"]

def construct(cls, e, env, cx, binds):
    fields = list(cls["fields"].items())
    plain_call(e, len(fields))
    args = []
    for a, (fname, (acc, fty)) in zip(e.args, fields):
        t, ty = ex(a, env, cx, binds)
        args.append(coerce(t, ty, fty, a))
    return "(" + " ".join([cls["ctor"]] + args) + ")", cls["type"]

# ----------------------------------------------------------------------------- statements
def mutation_base(s):
    """(name, kind) when the statement mutates a local in place: x[k] = e | x.append(e) | x[k].append(e)"""
    if isinstance(s, ast.Assign) and len(s.targets) == 1 and isinstance(s.targets[0], ast.Subscript) \
            and isinstance(s.targets[0].value, ast.Name):
        return s.targets[0].value.id, "setitem"
    if isinstance(s, ast.Expr) and isinstance(s.value, ast.Call) and isinstance(s.value.func, ast.Attribute) \
            and s.value.func.attr == "append":
        b = s.value.func.value
        if isinstance(b, ast.Name):
            return b.id, "append"
        if isinstance(b, ast.Subscript) and isinstance(b.value, ast.Name):
            return b.value.id, "slot_append"
    return None, None

def assigned(stmts):
    """names (re-)bound or mutated by the statements, nested blocks included (loop targets excluded)"""
    out = []
    def add(x):
        if x not in out:
            out.append(x)
    def visit(s):
        if isinstance(s, (ast.Assign, ast.AnnAssign, ast.AugAssign)):
            for t in (s.targets if isinstance(s, ast.Assign) else [s.target]):
                for n in ast.walk(t):
                    if isinstance(n, ast.Name) and isinstance(n.ctx, ast.Store):
                        add(n.id)
        x, _ = mutation_base(s)
        if x is not None:
            add(x)
        if isinstance(s, ast.With):
            for it in s.items:
                if isinstance(it.optional_vars, ast.Name):
                    add(it.optional_vars.id)
        for f in ("body", "orelse", "handlers", "finalbody"):
            for c in getattr(s, f, []) or []:
                visit(c)
    for s in stmts:
        visit(s)
    return out

def definite(stmts):
    """names certainly bound when the statements have run to their end"""
    out = set()
    for s in stmts:
        if isinstance(s, (ast.Assign, ast.AnnAssign)) and (not isinstance(s, ast.AnnAssign) or s.value is not None):
            for t in (s.targets if isinstance(s, ast.Assign) else [s.target]):
                if isinstance(t, ast.Name):
                    out.add(t.id)
        elif isinstance(s, ast.With):
            out |= definite(s.body)
        elif isinstance(s, ast.If) and s.orelse:
            out |= definite(s.body) & definite(s.orelse)
        elif isinstance(s, ast.Try) and len(s.handlers) == 1:
            out |= definite(s.body) & definite(s.handlers[0].body)
    return out

def exits(stmts):
    """the block always ends in return / raise"""
    if not stmts:
        return False
    s = stmts[-1]
    if isinstance(s, (ast.Return, ast.Raise)):
        return True
    if isinstance(s, ast.If) and s.orelse:
        return exits(s.body) and exits(s.orelse)
    if isinstance(s, ast.With):
        return exits(s.body)
    return False

def state_pattern(names):
    if not names:
        return "_"
    if len(names) == 1:
        return vname(names[0], None)
    return "'(" + ", ".join(vname(x, None) for x in names) + ")"

def state_value(names, env, types, node):
    if not names:
        return "tt"
    vals = [coerce(vname(x, node), env.vars[x].ty, ty, node) for x, ty in zip(names, types)]
    return vals[0] if len(vals) == 1 else "(" + ", ".join(vals) + ")"

class Unbind:
    """pseudo statement: the name goes out of scope"""
    def __init__(self, name):
        self.name = name

def check_raise(s, env, cx):
    e = s.exc
    if s.cause is not None or not (isinstance(e, ast.Call) and is_name(e.func, "ValueError")):
        reject(s, "only `raise ValueError(...)` accepted")
    glob(cx, "ValueError", e)
    plain_call(e, 1)
    a = e.args[0]
    if not (isinstance(a, ast.Constant) and isinstance(a.value, str)):
        reject(s, "exception message must be a string literal")
    return "Raise ValueError"

def block(ss, env, cx, tail, top=False):
    """statements -> coq text of type pyres <T>; tail(env) gives the text for the end of the block (None: the block
       must end in return / raise)"""
    if not ss:
        if tail is None:
            reject(cx.fdef, "a path through the function does not end in return / raise")
        return tail(env)
    s, rest = ss[0], ss[1:]
    def go(env2, top2=top):
        return block(rest, env2, cx, tail, top2)
    if isinstance(s, Unbind):
        env.vars.pop(s.name, None)
        return go(env)
    if isinstance(s, ast.Expr) and isinstance(s.value, ast.Constant) and isinstance(s.value.value, str):
        return go(env)
    com = f"(* {src(s)} *)\n  " if not isinstance(s, (ast.If, ast.For, ast.With, ast.Try)) else ""
    if isinstance(s, ast.Return):
        if rest:
            reject(s, "statements after return")
        if s.value is None:
            reject(s, "return without a value")
        if cx.writes:
            reject(s, "return of a value from a function that writes files")
        binds = []
        t, ty = ex(s.value, env, cx, binds)
        cx.rets.append((ty, s))
        return com + with_binds(binds, f"Val {t}")
    if isinstance(s, ast.Raise):
        if rest:
            reject(s, "statements after raise")
        return com + check_raise(s, env, cx)
    if isinstance(s, (ast.Assign, ast.AnnAssign, ast.AugAssign)) and mutation_base(s)[0] is None:
        if isinstance(s, ast.Assign):
            if len(s.targets) != 1:
                reject(s, "chained assignment")
            tg, val = s.targets[0], s.value
        elif isinstance(s, ast.AnnAssign):
            if s.value is None or not s.simple:
                reject(s, "annotation without a value")
            tg, val = s.target, s.value
        else:
            if not isinstance(s.op, ast.Add) or not isinstance(s.target, ast.Name):
                reject(s, "only `name += e` accepted")
            rd = ast.copy_location(ast.Name(id=s.target.id, ctx=ast.Load()), s.target)
            tg, val = s.target, ast.copy_location(ast.BinOp(left=rd, op=ast.Add(), right=s.value), s)
            v = env.vars.get(s.target.id)
            if v is not None and v.owned:
                reject(s, "+= on a mutable local")
        if not isinstance(tg, ast.Name):
            reject(s, "assignment target must be a name (or x[k])")
        if tg.id in ("self", "cls") or tg.id in [a.arg for a in cx.fdef.args.args if a.arg in ("self", "cls")]:
            reject(s, "assignment to self / cls")
        binds = []
        t, ty = ex(val, env, cx, binds)
        if isinstance(prune(ty), tuple) and prune(ty)[0] == "imag":
            reject(s, "1j * e must be added to something")
        fresh = isinstance(val, (ast.Dict, ast.List, ast.ListComp))
        env.bind(tg.id, ty, owned=fresh)
        return com + with_binds(binds, f"let {vname(tg.id, tg)} := {t} in\n  {go(env)}")
    x, kind = mutation_base(s)
    if x is not None:
        v = env.vars.get(x)
        if v is None or v.moved or not v.owned:
            reject(s, f"{x} is mutated in place but is not (any more) the sole reference to an object built here")
        vx = vname(x, s)
        binds = []
        if kind == "setitem":
            tgt = s.targets[0]
            if prune(v.ty) != JSON:
                reject(s, "x[k] = e on something that is not a dict built here")
            k, kty = ex(tgt.slice, env, cx, binds)
            if prune(kty) != STR:
                reject(s, "dict key must be a str")
            t, ty = ex(s.value, env, cx, binds)
            key = tgt.slice.value if isinstance(tgt.slice, ast.Constant) else None
            if key is None:
                v.slots.clear()
            elif isinstance(s.value, ast.List) and not s.value.elts:
                v.slots.add(key)
            else:
                v.slots.discard(key)
            text = f"bind (py_setitem {vx} {k} {coerce(t, ty, JSON, s)}) (fun {vx} =>\n  {go(env)})"
            return com + with_binds(binds, text)
        arg = s.value.args
        plain_call(s.value, 1)
        if kind == "append":
            lt = prune(v.ty)
            if lt[0] != "list":
                reject(s, ".append on something that is not a list built here")
            t, ty = ex(arg[0], env, cx, binds)
            text = f"let {vx} := py_append {vx} {coerce(t, ty, lt[1], s)} in\n  {go(env)}"
            return com + with_binds(binds, text)
        sub = s.value.func.value
        key = sub.slice.value if isinstance(sub.slice, ast.Constant) and isinstance(sub.slice.value, str) else None
        if prune(v.ty) != JSON or key is None or key not in v.slots:
            reject(s, f"x[k].append(e) needs `x[k] = []` earlier on every path (the list must be the one built here)")
        k = cstr(key, sub)
        a, b = cx.tmp(), cx.tmp()
        binds.append((a, f"py_getitem {vx} {k}"))
        binds.append((b, f"py_list_of {a}"))
        t, ty = ex(arg[0], env, cx, binds)
        text = f"bind (py_setitem {vx} {k} (TArr (py_append {b} {coerce(t, ty, JSON, s)}))) (fun {vx} =>\n  {go(env)})"
        return com + with_binds(binds, text)
    if isinstance(s, ast.Expr) and isinstance(s.value, ast.Call):
        c = s.value
        if isinstance(c.func, ast.Attribute) and c.func.attr == "write" and isinstance(c.func.value, ast.Name):
            v = env.vars.get(c.func.value.id)
            if v is None or prune(v.ty) != WFILE or not top:
                reject(s, "f.write(..) is accepted on the file of an enclosing `with open(p, 'w') as f` at function level")
            plain_call(c, 1)
            binds = []
            t, ty = ex(c.args[0], env, cx, binds, "read")
            if prune(ty) != STR:
                reject(s, "f.write of a non-str")
            return com + with_binds(binds, f"let fs := py_fwrite fs {vname(c.func.value.id, s)} {t} in\n  {go(env)}")
        if is_attr(c.func, "warnings", "warn") and "warnings" not in cx.locals:
            glob(cx, "warnings", c)
            if not (len(c.args) in (1, 2) and isinstance(c.args[0], ast.Constant) and isinstance(c.args[0].value, str)
                    and all(isinstance(a, ast.Name) for a in c.args[1:]) and not c.keywords):
                reject(s, "warnings.warn(<text>[, <category>]) only")
            return "(* warnings.warn(...): no effect on the values *)\n  " + go(env)
        reject(s, "expression statement not accepted")
    if isinstance(s, ast.With):
        return st_with(s, rest, env, cx, tail, top)
    if isinstance(s, ast.If):
        return st_if(s, rest, env, cx, tail, top)
    if isinstance(s, ast.For):
        return st_for(s, rest, env, cx, tail, top)
    if isinstance(s, ast.Try):
        return st_try(s, rest, env, cx, tail, top)
    reject(s, "statement not accepted")

def st_with(s, rest, env, cx, tail, top):
    if len(s.items) != 1 or not isinstance(s.items[0].optional_vars, ast.Name):
        reject(s, "with <one item> as <name>")
    c, f = s.items[0].context_expr, s.items[0].optional_vars.id
    if not (isinstance(c, ast.Call) and is_name(c.func, "open") and len(c.args) == 2 and not c.keywords
            and isinstance(c.args[1], ast.Constant) and c.args[1].value in ("r", "w")):
        reject(s, "only `with open(p, 'r' | 'w') as f` accepted")
    glob(cx, "open", c)
    if f in env.vars:
        reject(s, f"{f} re-binds an existing local")
    binds = []
    p, pty = ex(c.args[0], env, cx, binds)
    body = list(s.body) + [Unbind(f)] + list(rest)
    com = f"(* with {src(c)} as {f} *)\n  "
    if c.args[1].value == "r":
        cx.uses_fs = True
        env.bind(f, SRC)
        text = f"bind (py_open_r fs {coerce(p, pty, SRC, s)}) (fun {vname(f, s)} =>\n  {block(body, env, cx, tail, top)})"
        return com + with_binds(binds, text)
    if not top:
        reject(s, "files are written at function level only")
    cx.uses_fs = cx.writes = True
    if prune(pty) != PATH:
        reject(s, "open(p, 'w') needs a path")
    env.bind(f, WFILE)
    text = f"let {vname(f, s)} := {p} in\n  let fs := py_open_w fs {vname(f, s)} in\n  {block(body, env, cx, tail, top)}"
    return com + with_binds(binds, text)

def narrowing(test, env):
    """`x is None` / `x is not None` on a name of optional type: (name, branch in which x is not None)"""
    if isinstance(test, ast.Compare) and len(test.ops) == 1 and isinstance(test.ops[0], (ast.Is, ast.IsNot)) \
            and isinstance(test.left, ast.Name) and isinstance(test.comparators[0], ast.Constant) \
            and test.comparators[0].value is None:
        v = env.vars.get(test.left.id)
        if v is not None and prune(v.ty)[0] == "opt" and not v.owned:
            return test.left.id, ("orelse" if isinstance(test.ops[0], ast.Is) else "body")
    return None, None

def merge_envs(env, ea, eb, names, types):
    """the environment after two branches"""
    for x in list(env.vars):
        a, b = ea.vars.get(x), eb.vars.get(x)
        if a is None or b is None:
            env.vars.pop(x)
            continue
        env.vars[x].moved = a.moved or b.moved
    for x, ty in zip(names, types):
        a, b = ea.vars[x], eb.vars[x]
        env.bind(x, ty, owned=a.owned and b.owned)
        env.vars[x].slots = a.slots & b.slots
        env.vars[x].moved = a.moved or b.moved

def st_if(s, rest, env, cx, tail, top):
    nname, nbranch = narrowing(s.test, env)
    binds = []
    if nname is None:
        c = cond(s.test, env, cx, binds)
    def wrap(a, b):
        if nname is None:
            return f"if {c} then (\n  {a})\n  else (\n  {b})"
        some, none = (a, b) if nbranch == "body" else (b, a)
        return f"match {vname(nname, s)} with\n  | Some {vname(nname, s)} => (\n  {some})\n  | None => (\n  {none})\n  end"
    def branch_env(which):
        e2 = env.copy()
        if nname is not None:
            e2.vars[nname].ty = prune(e2.vars[nname].ty)[1] if which == nbranch else NONE
        return e2
    com = f"(* if {src(s.test)} *)\n  "
    # 1. guard: the body always exits, nothing else
    if not s.orelse and exits(s.body):
        a = block(list(s.body), branch_env("body"), cx, None)
        if nname is not None:
            reject(s, "a narrowing guard is not in the grammar")
        return com + with_binds(binds, f"if {c} then (\n  {a})\n  else\n  {block(rest, env, cx, tail, top)}")
    # 2. both branches exit
    if s.orelse and exits(s.body) and exits(s.orelse):
        if rest:
            reject(rest[0], "statements after an if whose branches all return")
        a = block(list(s.body), branch_env("body"), cx, None)
        b = block(list(s.orelse), branch_env("orelse"), cx, None)
        return com + with_binds(binds, wrap(a, b))
    if exits(s.body) or (s.orelse and exits(s.orelse)):
        reject(s, "an if with exactly one returning branch must be a guard without else")
    # 3. join
    both = definite(s.body) & definite(s.orelse)
    names = [x for x in assigned(list(s.body) + list(s.orelse)) if x in env.vars or x in both]
    names = [x for x in env.vars if x in names] + [x for x in names if x not in env.vars]
    if nname in names:
        reject(s, f"{nname} is re-bound in a branch that narrows it")
    ends = {}
    def probe(which):
        def t(e2):
            ends[which] = e2
            return "tt"
        return t
    block(list(s.body), branch_env("body"), cx, probe("body"))
    block(list(s.orelse), branch_env("orelse"), cx, probe("orelse"))
    for x in names:
        for w in ("body", "orelse"):
            if x not in ends[w].vars:
                reject(s, f"{x} is not bound at the end of a branch")
    types = [join(ends["body"].vars[x].ty, ends["orelse"].vars[x].ty, s) for x in names]
    final = {}
    def ret(which):
        def t(e2):
            final[which] = e2
            return "Val " + state_value(names, e2, types, s)
        return t
    a = block(list(s.body), branch_env("body"), cx, ret("body"))
    b = block(list(s.orelse), branch_env("orelse"), cx, ret("orelse"))
    for w in ("body", "orelse"):
        if nname is not None:                 # the narrowed name has its declared type again after the if
            final[w].vars[nname] = env.vars[nname].copy()
    merge_envs(env, final["body"], final["orelse"], names, types)
    text = f"bind ({wrap(a, b)}) (fun {state_pattern(names)} =>\n  {block(rest, env, cx, tail, top)})"
    return com + with_binds(binds, text)

def st_for(s, rest, env, cx, tail, top):
    if s.orelse:
        reject(s, "for ... else")
    for n in ast.walk(s):
        if isinstance(n, (ast.Break, ast.Continue, ast.Return)):
            reject(n, "break / continue / return inside a loop")
    binds = []
    it, ety = iterable(s.iter, env, cx, binds)
    names = [x for x in env.vars if x in assigned(s.body)]
    for n in ast.walk(s.iter):
        if isinstance(n, ast.Name) and n.id in names:
            reject(s, f"{n.id} is iterated while the loop body re-binds it")
    types = [env.vars[x].ty for x in names]
    def body_env():
        e2 = env.copy()
        p = target_pattern(s.target, ety, e2, s)
        return e2, p
    ends = {}
    def probe(e2):
        ends["e"] = e2
        return "tt"
    e2, p = body_env()
    block(list(s.body), e2, cx, probe)
    for x, ty in zip(names, types):
        v = ends["e"].vars.get(x)
        if v is None or v.moved:
            reject(s, f"{x} is not usable at the end of the loop body (it was stored / passed on)")
        if v.owned != env.vars[x].owned or not (env.vars[x].slots <= v.slots):
            reject(s, f"the loop body changes what is known about {x}")
    for x, v in ends["e"].vars.items():
        if x in env.vars and x not in names and v.moved and not env.vars[x].moved:
            reject(s, f"{x} is stored / passed on inside a loop")
    def ret(e3):
        return "Val " + state_value(names, e3, types, s)
    e2, p = body_env()
    body = block(list(s.body), e2, cx, ret)
    init = state_value(names, env, types, s)
    com = f"(* for {src(s.target)} in {src(s.iter)} *)\n  "
    text = f"bind (py_for {it} {init} (fun {p} {state_pattern(names)} =>\n  {body})) (fun {state_pattern(names)} =>\n  {block(rest, env, cx, tail, top)})"
    return com + with_binds(binds, text)

def st_try(s, rest, env, cx, tail, top):
    if len(s.handlers) != 1 or s.orelse or s.finalbody:
        reject(s, "try with exactly one except clause, no else / finally")
    h = s.handlers[0]
    if not is_name(h.type, "ValueError") or h.name is not None:
        reject(s, "except ValueError: only")
    glob(cx, "ValueError", h)
    for b in (s.body, h.body):
        for q in b:
            if not (isinstance(q, ast.Assign) and len(q.targets) == 1 and isinstance(q.targets[0], ast.Name)):
                reject(q, "only assignments to names inside try / except")
    names = assigned(s.body)
    if set(names) != definite(h.body):
        reject(s, "the handler must assign exactly the names the try body assigns (partial effects of the body are then invisible)")
    ends = {}
    def probe(w):
        def t(e2):
            ends[w] = e2
            return "tt"
        return t
    block(list(s.body), env.copy(), cx, probe("a"))
    block(list(h.body), env.copy(), cx, probe("b"))
    types = [join(ends["a"].vars[x].ty, ends["b"].vars[x].ty, s) for x in names]
    final = {}
    def ret(w):
        def t(e2):
            final[w] = e2
            return "Val " + state_value(names, e2, types, s)
        return t
    a = block(list(s.body), env.copy(), cx, ret("a"))
    b = block(list(h.body), env.copy(), cx, ret("b"))
    merge_envs(env, final["a"], final["b"], names, types)
    return f"(* try ... except ValueError *)\n  bind (py_try (\n  {a})\n  ValueError (\n  {b})) (fun {state_pattern(names)} =>\n  {block(rest, env, cx, tail, top)})"

# ----------------------------------------------------------------------------- functions
ANNOT = {"dict": JSON, "Dict[str, Any]": JSON, "np.ndarray": ARR, "Optional[np.ndarray]": OPT(ARR), "List": LIST(JSON),
         "AnyPath": PATH, "LoadSource": SRC, "float": NUM, "int": NUM, "PauliRepresentation": OPREP,
         "List[PauliSum]": LIST(OPREP), "str": STR}

def function(fdef, mod, F, FM, key, cls=None, decorator=None, ann_override=None):
    """translate one function / method; registers it in F under `key`"""
    decs = [ast.unparse(d) for d in fdef.decorator_list]
    if decs != ([decorator] if decorator else []):
        reject(fdef, f"decorators {decs} (expected {[decorator] if decorator else []}: a decorator may change what the call does)")
    a = fdef.args
    if a.vararg or a.kwarg or a.kwonlyargs or a.posonlyargs or a.kw_defaults:
        reject(fdef, "only plain positional parameters accepted")
    for d in a.defaults:
        if not (isinstance(d, ast.Constant) and d.value is None):
            reject(d, "a default value must be None (the generated function takes every parameter explicitly)")
    cx = Cx(mod, F, fdef, cls)
    cx.F_by_module = FM
    env = Env()
    params = []
    args = list(a.args)
    if cls is not None:
        first = "cls" if decorator == "classmethod" else "self"
        if not args or args[0].arg != first:
            reject(fdef, f"first parameter must be {first}")
        if first == "self":
            env.bind("self", cls["type"])
            params.append(("self", cls["type"]))
        args = args[1:]
    for p in args:
        ann = ast.unparse(p.annotation) if p.annotation is not None else None
        ty = (ann_override or {}).get(p.arg) or ANNOT.get(ann)
        if ty is None:
            reject(p, f"parameter annotation {ann} not accepted")
        if p.arg in env.vars or p.arg in ("fs", "self", "cls"):
            reject(p, "parameter name not accepted")
        env.bind(p.arg, ty)
        params.append((p.arg, ty))
    body = strip_docstring(fdef.body)
    if not body:
        reject(fdef, "empty body")
    is_writer = any(isinstance(n, ast.Call) and is_name(n.func, "open") and len(n.args) == 2
                    and isinstance(n.args[1], ast.Constant) and n.args[1].value == "w" for n in ast.walk(fdef))
    cx.writes = is_writer
    text = block(list(body), env, cx, (lambda e: "Val fs") if is_writer else None, top=True)
    if is_writer:
        ret = NONE
    else:
        if not cx.rets:
            reject(fdef, "the function returns no value")
        ret = cx.rets[0][0]
        for ty, node in cx.rets[1:]:
            unify(ret, ty, node)
    name = (cls["name"] + "_" + fdef.name.strip("_") if cls else fdef.name.lstrip("_")) + "_gen"
    sig = " ".join(f"({vname(p, fdef)} : {cty(ty)})" for p, ty in params)
    if cx.uses_fs:
        sig += " (fs : pyfs)"
    if not is_writer:
        cty(ret)                                 # the result type must be fully determined
    F[key] = dict(coq=name, args=[ty for _, ty in params], ret=prune(ret), uses_fs=cx.uses_fs, writes=cx.writes, level=1)
    return f"Definition {name} {sig} :=\n  {text}.\n"

# ----------------------------------------------------------------------------- module-level checks
def bindings(tree):
    """every (name, node) bound at module level"""
    out = []
    for n in tree.body:
        if isinstance(n, (ast.FunctionDef, ast.AsyncFunctionDef, ast.ClassDef)):
            out.append((n.name, n))
        elif isinstance(n, ast.Import):
            for al in n.names:
                out.append(((al.asname or al.name).split(".")[0], n))
        elif isinstance(n, ast.ImportFrom):
            for al in n.names:
                if al.name == "*":
                    reject(n, "star import (may re-bind anything)")
                out.append((al.asname or al.name, n))
        else:
            for m in ast.walk(n):
                if isinstance(m, ast.Name) and isinstance(m.ctx, (ast.Store, ast.Del)):
                    out.append((m.id, n))
                if isinstance(m, (ast.Global, ast.Nonlocal)):
                    reject(m, "global / nonlocal at module level")
    for n in ast.walk(tree):
        if isinstance(n, ast.Global):
            reject(n, "global statement (a function may re-bind module names)")
    return out

BUILTINS = ["open", "isinstance", "str", "bytes", "complex", "len", "int", "dict", "ValueError"]

def check_module(tree, expect_imports, expect_from, defs):
    """returns the set of global names that have the meaning the grammar assumes"""
    B = bindings(tree)
    def binders(x):
        return [n for (y, n) in B if y == x]
    ok = set()
    for b in BUILTINS:
        if binders(b):
            reject(binders(b)[0], f"builtin {b} is re-bound at module level")
        ok.add(b)
    for name, (module, asname) in expect_imports.items():          # import module [as name]
        bs = binders(name)
        if len(bs) != 1 or not (isinstance(bs[0], ast.Import) and any(al.name == module and (al.asname or al.name) == name for al in bs[0].names)):
            reject(bs[0] if bs else tree, f"{name} must be bound exactly once, by `import {module}{' as ' + name if asname else ''}`")
        ok.add(name)
    for name, (module, level) in expect_from.items():              # from module import name
        bs = binders(name)
        if len(bs) != 1 or not (isinstance(bs[0], ast.ImportFrom) and bs[0].module == module and bs[0].level == level
                                and any(al.name == name and al.asname is None for al in bs[0].names)):
            reject(bs[0] if bs else tree, f"{name} must be bound exactly once, by `from {'.' * level}{module} import {name}`")
        ok.add(name)
    for d in defs:
        bs = binders(d)
        if len(bs) != 1 or not isinstance(bs[0], (ast.FunctionDef, ast.ClassDef)):
            reject(bs[0] if bs else tree, f"{d} must be defined exactly once at module level")
        ok.add(d)
    return ok

def find_class(tree, name, methods):
    c = [n for n in tree.body if isinstance(n, ast.ClassDef) and n.name == name]
    if len(c) != 1:
        raise Reject(f"class {name} not found")
    c = c[0]
    if c.bases or c.keywords or c.decorator_list:
        reject(c, "class with bases / keywords / decorators")
    ms = {}
    for n in c.body:
        if isinstance(n, ast.FunctionDef):
            if n.name in ms:
                reject(n, "method defined twice")
            if n.name in ("__getattr__", "__getattribute__", "__setattr__", "__str__", "__format__", "__bool__"):
                reject(n, "attribute / conversion hook in the class")
            ms[n.name] = n
        elif isinstance(n, ast.Expr) and isinstance(n.value, ast.Constant) and isinstance(n.value.value, str):
            pass
        else:
            reject(n, "class-level statement other than a method definition")
    for m in methods:
        if m not in ms:
            raise Reject(f"method {name}.{m} not found")
    return ms

def check_init_fields(init, fields):
    """__init__(self, f1, f2, ..): self.f1 = f1; self.f2 = f2; ..   (the constructor stores its arguments)"""
    if init.decorator_list:
        reject(init, "decorated __init__")
    a = init.args
    names = [x.arg for x in a.args]
    if names != ["self"] + fields or a.vararg or a.kwarg or a.kwonlyargs or a.posonlyargs:
        reject(init, f"__init__ parameters must be self, {', '.join(fields)}")
    for d in a.defaults:
        if not (isinstance(d, ast.Constant) and d.value is None):
            reject(d, "default other than None")
    body = strip_docstring(init.body)
    if [ast.unparse(s) for s in body] != [f"self.{f} = {f}" for f in fields]:
        reject(init, "__init__ must consist of the assignments self.<parameter> = <parameter>, in order")

# ----------------------------------------------------------------------------- the sources
SRC_UTILS = "src/orquestra/quantum/utils.py"
SRC_EV = "src/orquestra/quantum/measurements/expectation_values.py"
SRC_IO = "src/orquestra/quantum/operators/_io.py"
SRC_OPS = "src/orquestra/quantum/operators/_pauli_operators.py"

EV_CLASS = dict(name="ExpectationValues", type=EV, ctor="mk_ev",
                fields={"values": ("ev_values", ARR), "correlations": ("ev_corr", OPT(LIST(ARR))),
                        "estimator_covariances": ("ev_cov", OPT(LIST(ARR)))})

def translate(repo):
    F, FM, out = {}, {}, []
    def parse(rel):
        return ast.parse(open(os.path.join(repo, rel)).read())
    def section(title):
        out.append(f"(* ------------------------------------------------------------------ {title} *)")
    def fn(tree, mod, name):
        key = ("fn", mod["name"], name)
        FM[(mod["name"], name)] = key
        section(f"{mod['name']}.{name}")
        out.append(function(find_function(tree, name), mod, F, FM, key))

    # ---- utils.py
    t = parse(SRC_UTILS)
    names = ["convert_dict_to_array", "convert_array_to_dict", "load_list", "save_list", "save_nmeas_estimate", "load_nmeas_estimate"]
    g = check_module(t, {"np": ("numpy", True), "json": ("json", False), "os": ("os", False)}, {}, names)
    mod = dict(name="utils", jsonlib="json", globals=g)
    for n in names:
        fn(t, mod, n)

    # ---- measurements/expectation_values.py
    t = parse(SRC_EV)
    g = check_module(t, {"np": ("numpy", True), "json": ("json", False)},
                     {"cast": ("typing", 0), "convert_array_to_dict": ("utils", 2), "convert_dict_to_array": ("utils", 2)},
                     ["ExpectationValues"])
    mod = dict(name="expectation_values", jsonlib="json", globals=g)
    for n in ("convert_array_to_dict", "convert_dict_to_array"):
        FM[("expectation_values", n)] = ("fn", "utils", n)
    ms = find_class(t, "ExpectationValues", ["__init__", "to_dict", "from_dict"])
    check_init_fields(ms["__init__"], list(EV_CLASS["fields"]))
    section("ExpectationValues.to_dict")
    out.append(function(ms["to_dict"], mod, F, FM, ("ev", "to_dict"), cls=EV_CLASS))
    section("ExpectationValues.from_dict")
    out.append(function(ms["from_dict"], mod, F, FM, ("ev", "from_dict"), cls=dict(EV_CLASS, classmethod=True), decorator="classmethod"))

    # ---- operators/_io.py
    t = parse(SRC_IO)
    names = ["convert_dict_to_op", "convert_op_to_dict", "save_operator", "load_operator", "save_operator_set", "load_operator_set"]
    g = check_module(t, {"json": ("rapidjson", True), "os": ("os", False)},
                     {"PauliSum": ("_pauli_operators", 1), "PauliTerm": ("_pauli_operators", 1)}, names)
    mod = dict(name="io", jsonlib="rapidjson", globals=g)
    for n in names:
        fn(t, mod, n)

    # ---- operators/_pauli_operators.py (text side)
    t = parse(SRC_OPS)
    names = ["_parse_operator", "_parse_operators_and_coefficient"]
    g = check_module(t, {"re": ("re", False), "warnings": ("warnings", False)}, {},
                     names + ["_parse_complex", "PauliTerm", "PauliSum"])
    if not isinstance([n for n in t.body if getattr(n, "name", None) == "_parse_complex"][0], ast.FunctionDef):
        raise Reject("_parse_complex must be a function")
    mod = dict(name="ops", jsonlib=None, globals=g)
    for n in names:
        fn(t, mod, n)
    TERM = dict(name="PauliTerm", type=TTERM, fields={})
    SUM = dict(name="PauliSum", type=TSUM, fields={})
    ms = find_class(t, "PauliTerm", ["__len__", "__getitem__", "__repr__"])
    for m, ov in (("__len__", None), ("__getitem__", {"i": QUBIT}), ("__repr__", None)):
        section(f"PauliTerm.{m}")
        out.append(function(ms[m], mod, F, FM, ("tterm", m), cls=TERM, ann_override=ov))
    ms = find_class(t, "PauliSum", ["__len__", "__repr__"])
    for m in ("__len__", "__repr__"):
        section(f"PauliSum.{m}")
        out.append(function(ms[m], mod, F, FM, ("tsum", m), cls=SUM))
    return "\n".join(out)

HEADER = """(* GENERATED by tr/tr_artefacts.py from utils.py, measurements/expectation_values.py, operators/_io.py and
   operators/_pauli_operators.py of src/orquestra/quantum - do not edit.
   Every definition below is the construct-by-construct translation of the Python function of the same name; the
   meaning of the building blocks is fixed in Serde/ArtefactsTrSupport.v; agreement with the models Serde/Artefacts.v
   and Serde/OpSerde.v is proved in Serde/ArtefactsGenProofs.v. *)
Require Import Coq.ZArith.ZArith Coq.NArith.NArith Coq.Lists.List Coq.Strings.String Coq.Bool.Bool.
Require Import OQ.Base.Ring OQ.Pauli.Algebra OQ.Serde.Json OQ.Serde.Artefacts OQ.Serde.NatKey OQ.Serde.OpSerde
  OQ.Serde.ArtefactsTrSupport.
Import ListNotations.
Open Scope string_scope.

Section Generated.
  (* the abstract parts, exactly those of the models *)
  Variable R : Type.                               (* numbers as JSON holds them *)
  Variable r_truthy : R -> bool.                   (* bool(x) *)
  Variable of_nat : nat -> R.                      (* a qubit index as a JSON number *)
  Variable to_nat : R -> option nat.               (* and back; None: not a non-negative int *)
  Variable K : cring.                              (* coefficients of a PauliSum *)
  Variable is_zero : K -> bool.                    (* the test simplify() drops terms by *)
  Variable inj : R -> K.                           (* the value of a JSON number *)
  Variable json_dumps : jt R -> string.            (* json.dumps(x, indent=2) *)
  Variable json_loads : string -> option (jt R).   (* json.loads; None: JSONDecodeError *)
  Variable rapidjson_dumps : jt R -> string.       (* rapidjson.dumps(x, indent=2) *)
  Variable rapidjson_loads : string -> option (jt R).
  Variable C : Type.                               (* coefficients as the text functions see them *)
  Variable show_c : C -> string.                   (* str(coefficient) *)
  Variable read_c : string -> option C.            (* _parse_complex; None: ValueError *)
  Variable c_zero : C.                             (* the int 0 *)

"""
FOOTER = "\nEnd Generated.\n"

def run(repo, out):
    target = os.path.join(out, OUTPUTS[0])
    try:
        body = translate(repo)
        body = "\n".join(("  " + l if l else l) for l in body.split("\n"))
        text = HEADER + body + FOOTER
    except Reject as e:
        # fail closed: no stale definitions from an earlier source may survive a rejection; the file below does not
        # compile, so everything that depends on the generated definitions stops building until the source is accepted
        why = re.sub(r"[^A-Za-z0-9 _.,:=()\[\]'-]", " ", str(e))[:300].replace("(*", "( *").replace("*)", "* )")
        why = FORBIDDEN_TEXT.sub("...", why)
        write_if_changed(target, "(* GENERATED by tr/tr_artefacts.py - THE TRANSLATOR REJECTED THE SOURCE:\n   " + why
                         + " *)\nDefinition translator_rejected_the_source : False := I.\n")
        raise
    write_if_changed(target, text)
    print("tr_artefacts: ok")

if __name__ == "__main__":
    main_wrapper(run)
