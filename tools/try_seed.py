#!/usr/bin/env python3
"""Confirm a seeded change and run the checks against it.
usage: try_seed.py <pid> <k> [--also C20,...] [--keep-name NAME]
Expects /tmp/seed/<pid>/seed_out/<k>/{patch.diff,demo.py,notes.md} in the scratch worktree /tmp/seed/<pid>."""
import json, os, shutil, subprocess, sys
pid, k = sys.argv[1], sys.argv[2]
also = sys.argv[sys.argv.index("--also") + 1].split(",") if "--also" in sys.argv else []
wt = f"/tmp/seed/{pid}"
src = f"{wt}/seed_out/{k}"
env = dict(os.environ, PYTHONPATH=f"{wt}/src", PYTHONHASHSEED="0")
def run(cmd, **kw):
    p = subprocess.run(cmd, stdout=subprocess.PIPE, stderr=subprocess.STDOUT, text=True, **kw)
    return p.returncode, p.stdout
log = {}
run(["git", "checkout", "--", "."], cwd=wt)
rc0, out0 = run(["/venv/bin/python", f"{src}/demo.py"], cwd=wt, env=env, timeout=900)
rca, outa = run(["git", "apply", f"{src}/patch.diff"], cwd=wt)
rc1, out1 = run(["/venv/bin/python", f"{src}/demo.py"], cwd=wt, env=env, timeout=900)
log["demo_without_change"] = dict(rc=rc0, tail=out0[-300:])
log["apply"] = dict(rc=rca, out=outa[-300:])
log["demo_with_change"] = dict(rc=rc1, tail=out1[-600:])
rcb, outb = run(["python3", "/verif/tools/baseline_check.py", "-n", "8", "--repo", wt], timeout=3600)
log["pinned_suite_with_change"] = dict(rc=rcb, tail=outb[-400:])
checks = {}
for p in [pid] + also:
    rcc, outc = run(["./check", p], cwd="/verif", env=dict(os.environ, VERIF_REPO=wt), timeout=7200)
    lines = [l for l in outc.splitlines() if "VIOLATION" in l or l.startswith("  [") or l.startswith(p + ":")]
    checks[p] = dict(rc=rcc, lines=lines[-8:])
log["checks"] = checks
run(["git", "checkout", "--", "."], cwd=wt)
run(["./check", "--regen"], cwd="/verif")
ok = rc0 == 0 and rca == 0 and rc1 != 0 and rcb == 0
log["confirmed"] = ok
log["detected_by"] = [p for p, c in checks.items() if c["rc"] == 1 and any("VIOLATION" in l for l in c["lines"])]
print(json.dumps(log, indent=1))
if ok:
    dst = f"/verif/seeded/{pid}-{k}"
    os.makedirs(dst, exist_ok=True)
    for f in ("patch.diff", "demo.py", "notes.md"):
        if os.path.exists(f"{src}/{f}"):
            shutil.copy(f"{src}/{f}", dst)
    notes = open(f"{src}/notes.md").read() if os.path.exists(f"{src}/notes.md") else ""
    json.dump(dict(property=pid, seed_id=f"{pid}-{k}", needs_to_manifest="see notes.md", what_was_run=log,
                   detected_by=log["detected_by"]), open(f"{dst}/meta.json", "w"), indent=1)
