#!/usr/bin/env python3
"""Re-run the current checks against every kept seeded change (seeded/<pid>-<k>/patch.diff) and record the
outcome in its meta.json under "recheck" (the first run's outcome stays under "what_was_run").
usage: recheck_seeds.py [<pid>-<k> ...]      (default: all)
Uses one scratch worktree of /repo under /tmp (created and removed here); /repo itself is never touched.
Serial on purpose: checks against different trees must not share the generated Coq files."""
import json, os, subprocess, sys, glob, time
ROOT = "/verif"
WT = "/tmp/seed_recheck_wt"
ALSO = {"C15-3": ["C04"], "C20-3": ["C17"], "C04-3": ["C01"]}
def run(cmd, **kw):
    p = subprocess.run(cmd, stdout=subprocess.PIPE, stderr=subprocess.STDOUT, text=True, **kw)
    return p.returncode, p.stdout
SEED = os.environ.get("VERIF_SEED", "0")
ids = sys.argv[1:] or sorted(os.path.basename(os.path.dirname(p)) for p in glob.glob(f"{ROOT}/seeded/*/patch.diff"))
run(["git", "-C", "/repo", "worktree", "remove", "--force", WT])
rc, out = run(["git", "-C", "/repo", "worktree", "add", "--detach", WT, "HEAD"])
assert rc == 0, out
summary = {}
try:
    for sid in ids:
        d = f"{ROOT}/seeded/{sid}"
        pid = sid.split("-")[0]
        run(["git", "reset", "-q", "--hard", "HEAD"], cwd=WT)
        rca, outa = run(["git", "apply", f"{d}/patch.diff"], cwd=WT)
        if rca != 0:      # made against an older commit: try a three-way merge
            run(["git", "reset", "-q", "--hard", "HEAD"], cwd=WT)
            rca, outa = run(["git", "apply", "--3way", f"{d}/patch.diff"], cwd=WT)
        res = dict(applied=rca == 0, head=run(["git", "-C", "/repo", "rev-parse", "--short", "HEAD"])[1].strip(),
                   when=time.strftime("%Y-%m-%d %H:%M"), checks={})
        if rca == 0:
            meta0 = json.load(open(f"{d}/meta.json"))
            for p in [pid] + ALSO.get(sid, []):
                rcc, outc = run(["./check", p], cwd=ROOT, env=dict(os.environ, VERIF_REPO=WT, VERIF_SEED=SEED), timeout=7200)
                lines = [l for l in outc.splitlines() if "VIOLATION" in l or l.startswith("  [") or l.startswith(p + ":")]
                res["checks"][p] = dict(rc=rcc, lines=lines[-6:])
            res["detected_by"] = [p for p, c in res["checks"].items() if c["rc"] == 1 and any("VIOLATION" in l for l in c["lines"])]
        else:
            res["apply_output"] = outa[-300:]
            res["detected_by"] = []
        meta = json.load(open(f"{d}/meta.json"))
        meta.setdefault("rechecks", {})[f"seed{SEED}"] = res
        if SEED == "0" or not meta.get("detected_by_now"):
            meta["detected_by_now"] = res["detected_by"]
        json.dump(meta, open(f"{d}/meta.json", "w"), indent=1)
        summary[sid] = res["detected_by"] if rca == 0 else "PATCH DOES NOT APPLY"
        print(sid, summary[sid], flush=True)
finally:
    run(["git", "-C", "/repo", "worktree", "remove", "--force", WT])
    run(["./check", "--regen"], cwd=ROOT)
missed = [s for s, v in summary.items() if not v or isinstance(v, str)]
print("missed:", missed)
sys.exit(1 if missed else 0)
