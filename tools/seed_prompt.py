#!/usr/bin/env python3
"""Print the prompt given to an independent sub-agent that seeds a property-breaking change."""
import json, sys
pid = sys.argv[1]
p = [json.loads(l) for l in open("/verif/properties.jsonl") if json.loads(l)["id"] == pid][0]
wt = f"/tmp/seed/{pid}"
print(f"""You are testing how well a semantic property of a Python library is protected. Work ONLY inside the git worktree {wt} (a checkout of the library zapatacomputing/orquestra-quantum: source under {wt}/src/orquestra/quantum, tests under {wt}/tests). Do not look at or touch /verif or /repo, and do not read anything outside {wt} except the Python environment. Run Python as: cd {wt} && PYTHONPATH={wt}/src /venv/bin/python ...  (pytest: cd {wt} && PYTHONPATH={wt}/src /venv/bin/python -m pytest -q -p no:cacheprovider -n 8 tests  — about 40 tests fail even on the unchanged checkout for environmental reasons (numpy 2 vs sympy 1.9, missing optional packages); what matters is that no test that passes on the unchanged checkout fails with your change: record the set of passing test ids before and after and compare them exactly).

The property (id {pid}): "{p['title']}"
{p['statement']}
It is meant to hold for: {p['quantifier']['text']}

Task: produce TWO independent, realistic source changes (bugs a maintainer could plausibly introduce in a refactor or "optimisation"), each of which BREAKS this property while the code still imports and every previously passing test of the existing suite still passes. Prefer changes that need something specific to manifest — an unusual but legitimate input, a multi-step sequence of operations, a particular ordering, a boundary value, or two cooperating sites that each look fine alone — not changes that ordinary use would expose at once, and not changes that merely raise exceptions everywhere. The two changes should touch different functions / different clauses of the property.

For each change k in (1, 2) deliver, under {wt}/seed_out/k/:
  - patch.diff : `git diff` of the source change alone, relative to the worktree root (apply-able with `git apply`);
  - demo.py : a small standalone program (run with the command line above) that exits 0 and prints OK on the unchanged code and exits non-zero with the change applied, by checking the property itself (not an implementation detail) on the specific input that exposes the change;
  - notes.md : what the change is, which clause of the property it breaks, what it needs in order to manifest, and the exact commands you ran with their outcomes (demo without and with the change; the test-suite comparison).
Leave the worktree's tracked files UNCHANGED at the end (git checkout -- . ; the seed_out directory is untracked). Your final message: a short summary of the two changes and confirmation of what you verified.""")
