#!/usr/bin/env python3
"""Prompt for a fifth-round seeding agent (fresh worktree, no earlier seeds visible; output as seed_out/6)."""
import json, sys
pid = sys.argv[1]
p = [json.loads(l) for l in open("/verif/properties.jsonl") if json.loads(l)["id"] == pid][0]
wt = f"/tmp/seed/{pid}"
print(f"""You are testing how well a semantic property of a Python library is protected. Work ONLY inside the git worktree {wt} (a checkout of the library zapatacomputing/orquestra-quantum: source under {wt}/src/orquestra/quantum, tests under {wt}/tests). Do not look at or touch /verif or /repo, and do not read anything outside {wt} except the Python environment. Run Python as: cd {wt} && PYTHONPATH={wt}/src /venv/bin/python ...  (pytest: cd {wt} && PYTHONPATH={wt}/src /venv/bin/python -m pytest -q -p no:cacheprovider -n 8 tests  — about 260 tests fail even on the unchanged checkout for environmental reasons (numpy 2 vs sympy 1.9); a handful of tests in tests/orquestra/quantum/runners/trackers_test.py and tests/orquestra/quantum/wavefunction_test.py write fixed file names and race under -n 8: if one of those is the only difference, re-run those two files serially (without -n) and use that outcome. What matters is that no test that passes on the unchanged checkout fails with your change: record the set of passing test ids before and after and compare them exactly.)

The property (id {pid}): "{p['title']}"
{p['statement']}
It is meant to hold for: {p['quantifier']['text']}

Produce ONE realistic source change, as {wt}/seed_out/6/, that BREAKS this property while the code still imports and every previously passing test still passes. You have about 12 minutes: be quick and decisive. It must be subtle: prefer one of these shapes — (a) two cooperating sites that each look fine alone (a helper changed consistently with one caller but not another), (b) a failure that needs a multi-step sequence or an earlier call's side effect (caching, aliasing, in-place mutation of a shared object), (c) a boundary/degenerate-but-legitimate input (largest/smallest index, repeated element, empty-but-valid, wide register, a value of an unusual-but-accepted numeric type), (d) a change in a dependency the property's functions call (a utility, a constructor, a table) rather than in those functions themselves, (e) a data-dependent condition (only for a particular gate name / parameter value / count threshold / number of qubits >= some k). It must not be something ordinary use would expose at once, and must not merely raise exceptions everywhere.

Deliver under {wt}/seed_out/6/:
  - patch.diff : `git diff` of the source change alone, relative to the worktree root (apply-able with `git apply`);
  - demo.py : a small standalone program (run with the command line above) that exits 0 and prints OK on the unchanged code and exits non-zero with the change applied, by checking the property itself (not an implementation detail) on the specific input or sequence that exposes the change;
  - notes.md : what the change is, which clause it breaks, what it needs in order to manifest, and the exact commands you ran with their outcomes (demo without and with the change; the test-suite comparison).
Never use `git stash` (the stash is shared between worktrees): keep your change as a patch file and use `git apply` / `git apply -R`. Leave the worktree's tracked files UNCHANGED at the end (git checkout -- . ; the seed_out directory is untracked). Your final message: a short summary and confirmation of what you verified.""")
