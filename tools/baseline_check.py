#!/usr/bin/env python3
"""Run the repository's test suite (guard OFF) and compare with the pinned baseline.

Exit 0 iff every test in BASELINE.json's stable_pass list passes.
usage: baseline_check.py [-n WORKERS] [--repo DIR]
"""
import ast, json, os, subprocess, sys, tempfile, xml.etree.ElementTree as ET

def main():
    workers = None
    if "-n" in sys.argv:
        workers = sys.argv[sys.argv.index("-n") + 1]
    repo = "/repo"
    if "--repo" in sys.argv:
        repo = sys.argv[sys.argv.index("--repo") + 1]
    base = json.load(open("/root/.vp/BASELINE.json"))
    stable = base["stable_pass"]
    if isinstance(stable, str):
        stable = ast.literal_eval(stable)
    stable = set(stable)
    fd, junit = tempfile.mkstemp(suffix=".xml", dir="/var/tmp"); os.close(fd)
    env = dict(os.environ)
    env.pop("ORQUESTRA_QUANTUM_VERIF", None)
    if repo != "/repo":
        env["PYTHONPATH"] = repo + "/src"
    cmd = ["/venv/bin/python", "-m", "pytest", "-q", "-p", "no:cacheprovider", "--timeout=900",
           "--continue-on-collection-errors", "--junitxml=" + junit]
    if workers:
        cmd += ["-n", workers]
    p = subprocess.run(cmd, cwd=repo, env=env, stdout=subprocess.PIPE, stderr=subprocess.STDOUT, text=True)
    tail = p.stdout.strip().splitlines()[-1:] 
    passed = set()
    for tc in ET.parse(junit).getroot().iter("testcase"):
        if not any(ch.tag in ("failure", "error", "skipped") for ch in tc):
            passed.add(f"{tc.get('classname')}::{tc.get('name')}")
    os.unlink(junit)
    missing = sorted(stable - passed)
    if missing and workers:
        # tests that write fixed file names race under xdist: re-run the files of the missing ids serially
        files = set()
        for m in missing:
            parts = m.split("::")[0].split(".")
            for k in range(len(parts), 0, -1):
                cand = os.path.join(repo, *parts[:k]) + ".py"
                if os.path.exists(cand):
                    files.add(cand)
                    break
        if files:
            fd, junit2 = tempfile.mkstemp(suffix=".xml", dir="/var/tmp"); os.close(fd)
            cmd2 = [c for c in cmd if not c.startswith("--junitxml") and c not in ("-n", workers)] + ["--junitxml=" + junit2] + sorted(files)
            subprocess.run(cmd2, cwd=repo, env=env, stdout=subprocess.PIPE, stderr=subprocess.STDOUT, text=True)
            for tc in ET.parse(junit2).getroot().iter("testcase"):
                if not any(ch.tag in ("failure", "error", "skipped") for ch in tc):
                    passed.add(f"{tc.get('classname')}::{tc.get('name')}")
            os.unlink(junit2)
            missing = sorted(stable - passed)
    print("pytest:", *tail)
    print(f"baseline stable_pass={len(stable)} passed_now={len(passed)} baseline_missing={len(missing)}")
    for m in missing[:40]:
        print("  MISSING", m)
    sys.exit(1 if missing else 0)

main()
