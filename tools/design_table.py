#!/usr/bin/env python3
"""Print the per-property summary table of DESIGN.md section 4 from the current tree:
number of property theorems (Props/Cxx.v), axioms (props/Cxx.json), translators in the closure (coqdep),
quick-tier cases / wall time (evidence/Cxx.json)."""
import json, os, re, subprocess, glob
ROOT = os.path.dirname(os.path.dirname(os.path.abspath(__file__)))
COQ = os.path.join(ROOT, "coq")
trs = {}
for f in sorted(glob.glob(os.path.join(ROOT, "tr", "tr_*.py"))):
    m = re.search(r"^OUTPUTS = (\[.*?\])", open(f).read(), flags=re.M)
    for o in json.loads(m.group(1).replace("'", '"')):
        trs["Gen/" + o] = os.path.basename(f)[3:-3]
print("| id | theorems (Props) | refuted / partial | axioms | translators in the closure | quick cases / time |")
print("|---|---|---|---|---|---|")
for pid in [f"C{i:02d}" for i in range(1, 21)]:
    src = open(os.path.join(COQ, "Props", pid + ".v")).read()
    thms = re.findall(r"^\s*Theorem\s+([A-Za-z0-9_']+)", src, flags=re.M)
    special = [t for t in thms if t.endswith("_refuted") or t.endswith("_partial")]
    cfg = json.load(open(os.path.join(ROOT, "props", pid + ".json")))
    ax = "closed" if not cfg.get("reals") and not cfg.get("allow_axioms") else ("reals" + (" + " + ", ".join(a.split(".")[-1] for a in cfg.get("allow_axioms", [])) if cfg.get("allow_axioms") else ""))
    out = subprocess.run(["coqdep", "-Q", ".", "OQ", "-sort", f"Props/{pid}.v"], cwd=COQ, stdout=subprocess.PIPE, stderr=subprocess.DEVNULL, text=True).stdout
    used = sorted({trs[f] for f in out.split() if f in trs})
    ev = json.load(open(os.path.join(ROOT, "evidence", pid + ".json")))
    cov = ev["coverage"]
    print(f"| {pid} | {len(thms)} | {len(special)} | {ax} | {', '.join(used) or '—'} | {cov['evaluations']} / {ev['wall_s']:.0f} s |")
