#!/usr/bin/env python3
"""Regenerate MANIFEST.json from checkcfg.json + manifest_text.json (per-property wording)."""
import json, os, subprocess
ROOT = os.path.dirname(os.path.dirname(os.path.abspath(__file__)))
import glob
claimed = open(os.path.join(ROOT, "props", "claimed.txt")).read().split()
cfg = {"properties": {os.path.basename(f)[:-5]: json.load(open(f)) for f in glob.glob(os.path.join(ROOT, "props", "C*.json")) if os.path.basename(f)[:-5] in claimed}}
txt = cfg["properties"]
na_txt = json.load(open(os.path.join(ROOT, "props", "not_applicable.json"))) if os.path.exists(os.path.join(ROOT, "props", "not_applicable.json")) else {}
props = [json.loads(l) for l in open(os.path.join(ROOT, "properties.jsonl"))]
fix_commits = subprocess.run(["git", "-C", "/repo", "log", "--format=%h %s", "--grep=^fix:"], stdout=subprocess.PIPE, text=True).stdout.strip().splitlines()
checks, na = [], []
for p in props:
    pid = p["id"]
    if pid in cfg["properties"]:
        t = txt[pid]
        checks.append(dict(
            property_id=pid,
            quick_cmd=f"./check {pid} --tier quick",
            thorough_cmd=f"./check {pid} --tier thorough",
            evidence_file=f"/verif/evidence/{pid}.json",
            replay_cmd_template=f"./check {pid} --replay {{path}}",
            engine="coq-model+correspondence",
            level_claimed=dict(category="proof", text=t["level_text"], design_ref=t.get("design_ref", "DESIGN.md section 4, " + pid)),
            level_note=t["level_note"],
            technique=t.get("technique", "machine-checked proof in Coq 8.16 over a Gallina model; model tied to /repo by regenerated translation and/or in-Coq correspondence check")))
    else:
        na.append(dict(property_id=pid, reason=na_txt.get(pid, "check not built yet; see DESIGN.md section 4 for the plan")))
m = dict(version=1,
         setup_cmd="./check --setup",
         hooks=dict(guard="ORQUESTRA_QUANTUM_VERIF", enable="no source hooks are needed; checks run /repo/src directly with ORQUESTRA_QUANTUM_VERIF=1 set (unused by the library)",
                    baseline_off_cmd="python3 tools/baseline_check.py", source_commits=[], add_only=True),
         engines=[dict(name="coq-model+correspondence", path="/verif/check", serves_properties=[c["property_id"] for c in checks],
                       kind_free_text="Coq 8.16.1 development under /verif/coq (models, proofs, Props/Cxx.v), translators under /verif/tr regenerating Gen/*.v from /repo on every run, Python harnesses under /verif/harness writing implementation outputs as Coq case files compared by vm_compute inside coqc")],
         checks=checks,
         notes="Repairs of genuine defects are the commits in /repo whose message starts with 'fix:' (" + str(len(fix_commits)) + "); they and the findings kept as known are listed in /verif/findings/*.json and DESIGN.md section 5.",
         not_applicable=na)
json.dump(m, open(os.path.join(ROOT, "MANIFEST.json"), "w"), indent=1)
print("MANIFEST.json:", len(checks), "checks,", len(na), "not claimed")
